//! C10 — graceful-restart helper: stale routes live only while a timer or EOR is pending.
//!
//! Histories of session establishments (generated GR / LLGR / N-bit negotiation), drops
//! with every disconnect reason, connection attempts that end before Established,
//! announcements, End-of-RIB markers and time passing (tokio paused clock) are driven
//! through the daemon's own per-peer context: GrState, apply_disconnect, the restart and
//! LLGR timer tasks and the TableManager stale/purge calls (GrRig in the event hook
//! module). Invariants over the RIB and the timer slots are checked after every step.

use crate::common::*;
use crate::event::verif::{GrRig, SessionGr, adj_in};
use crate::fsm::SessionDownReason;
use crate::table_manager::TableManager;
use proptest::prelude::*;
use rustybgp_packet as packet;
use rustybgp_packet::bgp::{self, Family, Nexthop, PathNlri};
use rustybgp_table as table;
use serde::{Deserialize, Serialize};
use serde_json::Value;
use std::collections::BTreeSet;
use std::net::{IpAddr, Ipv4Addr};
use std::sync::Arc;
use std::time::Duration;

pub const RULE: &str = "cases = 1..16 steps for one peer over a 2-shard TableManager and a paused clock: session established (families out of IPv4 / IPv6 / EVPN, GR family subset, restart time, N-bit, LLGR family subset and stale time), \
connection that ends before Established, session down (TCP close, I/O error, received Cease, received hard reset, sent Cease, hold timer, admin shutdown, FSM error, sent UPDATE error), announce (optionally with NO_LLGR), End-of-RIB per family, time advance. \
Invariants after every step: while the session is down, the RIB holds routes of the peer in family f only if the restart timer is armed and f was kept by an eligible drop, or an LLGR timer is armed for f; after a drop that is not eligible for helper mode (hard reset, admin shutdown, FSM error, sent non-Cease error; Cease / hold timer without N-bit) no route of the peer remains; \
while LLGR timers run and the restart timer does not, no NO_LLGR route remains; while the session is up every route announced on it is present and not stale, and a stale route exists in family f only while that session negotiated GR for f and its End-of-RIB has not arrived. \
non-trivial := a drop eligible for helper mode followed by a reconnect (successful or not) or a timer expiry; distinct := distinct serialized case";

const FAMS: [Family; 3] = [Family::IPV4, Family::IPV6, Family::L2VPN_EVPN];
const PEER: Ipv4Addr = Ipv4Addr::new(10, 0, 0, 2);

#[derive(Clone, Debug, Serialize, Deserialize, PartialEq)]
pub struct SessSpec {
    pub fams: u8,
    pub gr: bool,
    pub gr_fams: u8,
    pub restart: u16,
    pub nbit: bool,
    pub llgr_fams: u8,
    pub llgr_time: u16,
}

#[derive(Clone, Debug, Serialize, Deserialize, PartialEq)]
pub enum Op {
    Up(SessSpec),
    FailedConnect,
    Down(u8),
    Announce {
        fam: u8,
        prefix: u8,
        no_llgr: bool,
        /// carries the community the import policy rejects: the path is held but hidden from selection
        #[serde(default)]
        rejected: bool,
    },
    /// next-hop tracking reports next hop `k` (of the two the announcements use) reachable or not
    NextHop { k: u8, reachable: bool },
    Eor(u8),
    Advance(u16),
}

#[derive(Clone, Debug, Serialize, Deserialize)]
pub struct Case {
    pub ops: Vec<Op>,
}

fn fams_of(mask: u8) -> Vec<Family> {
    FAMS.iter().enumerate().filter(|(i, _)| mask & (1 << i) != 0).map(|(_, f)| *f).collect()
}

fn nlri(f: Family, p: u8) -> packet::Nlri {
    match f {
        Family::IPV4 => crate::cgen::v4(10, 20 + p, 0, 0, 16),
        Family::IPV6 => packet::Nlri::V6(bgp::Ipv6Net { addr: std::net::Ipv6Addr::from(((0x2001_0db8u128) << 96) | ((p as u128 + 1) << 64)), mask: 64 }),
        _ => crate::cgen::nlri::NlriSpec::EvpnType3 { rd: crate::cgen::nlri::RdSpec::TwoOctet(1, 1), etag: p as u32, v6: false, ip: 0x0a000001 }.build(),
    }
}

fn reason_of(r: u8) -> (Option<SessionDownReason>, &'static str) {
    let n = |x: packet::Notification| bgp::Message::Notification(x);
    match r % 9 {
        0 => (None, "tcp-close"),
        1 => (Some(SessionDownReason::IoError), "io-error"),
        2 => (Some(SessionDownReason::RemoteNotification(n(packet::Notification::CeaseAdminShutdown))), "received-cease"),
        3 => (Some(SessionDownReason::RemoteNotification(n(packet::Notification::CeaseHardReset))), "received-hard-reset"),
        4 => (Some(SessionDownReason::LocalNotification(n(packet::Notification::CeaseMaxPrefixReached))), "sent-cease"),
        5 => (Some(SessionDownReason::HoldTimerExpired), "hold-timer"),
        6 => (Some(SessionDownReason::AdminShutdown), "admin-shutdown"),
        7 => (Some(SessionDownReason::FsmError), "fsm-error"),
        _ => (Some(SessionDownReason::LocalNotification(n(packet::Notification::UpdateMalformedAttributeList))), "sent-update-error"),
    }
}

/// may this disconnect enter GR helper mode (statement + RFC 4724 / 8538)
fn gr_eligible(r: u8, nbit: bool) -> bool {
    match r % 9 {
        0 | 1 => true,
        2 | 4 | 5 => nbit,
        _ => false,
    }
}

struct Live {
    spec: SessSpec,
    sources: Vec<Arc<table::Source>>,
    announced: BTreeSet<(usize, u8)>,
    eor: BTreeSet<usize>,
}

pub fn check(c: &Case) -> CheckResult {
    let rt = tokio::runtime::Builder::new_current_thread().enable_time().start_paused(true).build().map_err(|e| Failure::new("harness", e.to_string()))?;
    rt.block_on(run_case(c))
}

async fn settle() {
    for _ in 0..40 {
        tokio::task::yield_now().await;
    }
}

async fn run_case(c: &Case) -> CheckResult {
    run_on(c, None).await
}

/// `wire` = None: the GrRig (function level); Some: the same history over real sessions
async fn run_on(c: &Case, mut wire: Option<WireRig>) -> CheckResult {
    let tables = match &wire {
        Some(w) => w.rig.tables.clone(),
        None => Arc::new(TableManager::new(2)),
    };
    let addr = match &wire {
        Some(w) => w.src,
        None => IpAddr::V4(PEER),
    };
    let rig = GrRig::new(addr, &tables);
    // import policy: reject routes carrying 65000:1 (they stay in the Adj-RIB-In, hidden from selection)
    let (_policy_table, import) = {
        use super::c14::*;
        let p = Program {
            prefix_sets: vec![vec![(1, 8, 32)]],
            neighbor_sets: vec![vec![0]],
            aspath_sets: vec![vec![AsPat::Include(1)]],
            comm_sets: vec![vec![CommPat::Exact(0xfde8_0001)]],
            ext_sets: vec![vec![1]],
            large_sets: vec![vec![(1, 2, 3)]],
            policies: vec![vec![0]],
            stmts: vec![Stmt { conds: vec![Cond::CommunitySet(0, Opt::Any)], disp: Some(false), act: Act::default() }],
            assign: vec![0],
            default_accept: true,
            export: false,
            is_confed: false,
        };
        load(&p).map_err(|e| Failure::new("harness", format!("policy load: {e}")))?
    };
    tables.import_policy.store(Some(import));
    let mut live: Option<Live> = None;
    // families kept by the last eligible drop (restart timer covers them) / by LLGR
    let mut kept_gr: Vec<Family> = Vec::new();
    let mut kept_llgr: Vec<Family> = Vec::new();
    let mut no_llgr_marked: BTreeSet<String> = BTreeSet::new();
    let mut last_down: Option<(&'static str, bool)> = None;
    let mut info = CaseInfo::trivial();
    let mut eligible_drop_seen = false;

    'steps: for (i, op) in c.ops.iter().enumerate() {
        let mut what = "";
        'op: {
        match op {
            Op::Up(spec) => {
                if live.is_some() || spec.fams & 7 == 0 {
                    continue 'steps;
                }
                what = "established";
                let fams = fams_of(spec.fams);
                let gr_f: Vec<Family> = if spec.gr { fams_of(spec.gr_fams & spec.fams) } else { vec![] };
                let sources = FAMS.iter().map(|_| Arc::new(table::Source::new(addr, IpAddr::V4(Ipv4Addr::new(10, 0, 0, 1)), 65100, 65000, Ipv4Addr::new(2, 2, 2, 2), table::PeerRole::Ebgp))).collect();
                let _ = fams;
                match wire.as_mut() {
                    None => rig.session_established(gr_f).await,
                    Some(w) => w.up(spec).await?,
                }
                live = Some(Live { spec: spec.clone(), sources, announced: BTreeSet::new(), eor: BTreeSet::new() });
                if eligible_drop_seen {
                    info.nontrivial = true;
                    info.classes.push("reconnect-after-helper-mode");
                }
                last_down = None;
            }
            Op::FailedConnect => {
                if live.is_some() {
                    continue 'steps;
                }
                what = "failed-connect";
                let s = SessionGr { families: vec![], gr: None, llgr: None };
                match wire.as_mut() {
                    None => rig.session_down(&tables, false, &s, Some(SessionDownReason::IoError)).await,
                    Some(w) => w.failed_connect().await?,
                }
                if eligible_drop_seen {
                    info.nontrivial = true;
                    info.classes.push("failed-reconnect-after-helper-mode");
                }
            }
            Op::Down(r) => {
                if let Some(w) = wire.as_mut() {
                    if live.is_none() {
                        if r % 9 != 6 {
                            continue 'steps;
                        }
                        // forced peer-down (DisablePeer) while the session is down: pending timers fire at once
                        what = "forced-down";
                        w.forced_down().await?;
                        kept_gr.clear();
                        kept_llgr.clear();
                        info.classes.push("forced-down-in-helper-mode");
                    } else if r % 9 == 4 {
                        continue 'steps; // a Cease sent by the daemon on its own is not produced over the wire
                    }
                }
                // (after a forced peer-down the general invariants below apply: what is still held
                // must be covered by an armed timer. With LLGR negotiated the daemon turns the fired
                // restart timer into an LLGR period, so routes may remain for the LLGR stale time;
                // the statement does not exclude that, see DESIGN.md 0A.8)
                let Some(l) = live.take() else {
                    if what.is_empty() {
                        continue 'steps;
                    }
                    break 'op;
                };
                let (reason, name) = reason_of(*r);
                what = name;
                let fams = fams_of(l.spec.fams);
                let gr_f = fams_of(l.spec.gr_fams & l.spec.fams);
                let llgr_f = fams_of(l.spec.llgr_fams & l.spec.fams);
                let gr = if l.spec.gr && !gr_f.is_empty() { Some((gr_f.clone(), Duration::from_secs(l.spec.restart as u64), l.spec.nbit)) } else { None };
                let llgr = if !llgr_f.is_empty() { Some(llgr_f.iter().map(|f| (*f, Duration::from_secs(l.spec.llgr_time as u64))).collect()) } else { None };
                let eligible = gr.is_some() && gr_eligible(*r, l.spec.nbit);
                let s = SessionGr { families: fams, gr, llgr };
                match wire.as_mut() {
                    None => rig.session_down(&tables, true, &s, reason).await,
                    Some(w) => w.down(*r % 9).await?,
                }
                kept_gr = if eligible { gr_f } else { vec![] };
                // LLGR follows GR's eligibility; without GR it applies to connection loss only
                kept_llgr = if eligible || (s.gr.is_none() && matches!(r % 9, 0 | 1)) || (s.gr.is_some() && !eligible && matches!(r % 9, 0 | 1)) { llgr_f.clone() } else { vec![] };
                if eligible {
                    eligible_drop_seen = true;
                    info.classes.push("eligible-drop");
                }
                last_down = Some((name, eligible || (s.llgr.is_some() && matches!(r % 9, 0 | 1))));
            }
            Op::NextHop { k, reachable } => {
                what = "next-hop-report";
                tables.update_nexthop_validity(IpAddr::V4(Ipv4Addr::new(192, 0, 2, 1 + k % 2)), *reachable);
                tables.update_nexthop_validity("2001:db8::1".parse().unwrap(), *reachable || k % 2 == 0);
                info.classes.push("next-hop-report");
            }
            Op::Announce { fam, prefix, no_llgr, rejected } => {
                let Some(l) = live.as_mut() else { continue 'steps };
                let fi = *fam as usize % 3;
                if l.spec.fams & (1 << fi) == 0 {
                    continue 'steps;
                }
                what = "announce";
                let mut spec = crate::cgen::AttrSpec { origin: Some(0), as_path: Some(vec![crate::cgen::Seg { t: 2, n: 1, base: 65100, asns: vec![] }]), ..Default::default() };
                if *no_llgr {
                    spec.communities = vec![0xffff_0007];
                }
                if *rejected {
                    spec.communities.push(0xfde8_0001);
                    info.classes.push("announce-rejected-by-import-policy");
                }
                let nh4 = Ipv4Addr::new(192, 0, 2, 1 + prefix % 2);
                let n = nlri(FAMS[fi], *prefix % 4);
                if *no_llgr {
                    no_llgr_marked.insert(format!("{n:?}"));
                } else {
                    no_llgr_marked.remove(&format!("{n:?}"));
                }
                match wire.as_mut() {
                    None => {
                        let _ = tables.insert_route(l.sources[fi].clone(), FAMS[fi], PathNlri { path_id: 0, nlri: n }, Some(Nexthop::V4(nh4)), Arc::new(spec.build()), None, 1);
                    }
                    Some(w) => w.announce(FAMS[fi], n, nh4, spec.build()).await?,
                }
                l.announced.insert((fi, *prefix % 4));
            }
            Op::Eor(f) => {
                let Some(l) = live.as_mut() else { continue 'steps };
                let fi = *f as usize % 3;
                if l.spec.fams & (1 << fi) == 0 {
                    continue 'steps;
                }
                what = "end-of-rib";
                match wire.as_mut() {
                    None => rig.eor(FAMS[fi]).await,
                    Some(w) => w.eor(FAMS[fi]).await?,
                }
                l.eor.insert(fi);
            }
            Op::Advance(secs) => {
                if wire.is_some() && live.is_some() {
                    continue 'steps; // over the wire time passes only while the session is down (no keepalive traffic is scripted)
                }
                what = "time-passes";
                tokio::time::advance(Duration::from_secs(*secs as u64)).await;
                if let Some(w) = wire.as_mut() {
                    w.advanced += Duration::from_secs(*secs as u64);
                }
                if live.is_none() && eligible_drop_seen {
                    info.nontrivial = true;
                }
            }
        }
        }
        settle().await;
        if let Some(w) = wire.as_mut() {
            w.settle().await;
            if w.clock_moved() {
                return Ok(CaseInfo::trivial().class("wire-inconclusive-clock-moved"));
            }
        }

        // ---- invariants -----------------------------------------------------------
        let rows = adj_in(&tables, addr, &FAMS);
        let (gr_armed, llgr_armed, restarting) = match &wire {
            None => rig.timers(),
            Some(w) => w.rig.gr_timers(addr).await,
        };
        let wit = |f: Failure| f.with("after", what).with("down_reason", last_down.map(|d| d.0).unwrap_or("-")).with("restart_timer_armed", gr_armed).with("llgr_timers_armed", !llgr_armed.is_empty()).with("is_peer_restarting", restarting);
        match &live {
            None => {
                for f in FAMS {
                    let n = rows.iter().filter(|r| r.0 == f).count();
                    if n == 0 {
                        continue;
                    }
                    // an LLGR family waits for the restart timer first when GR was kept as well
                    let covered = (gr_armed && (kept_gr.contains(&f) || kept_llgr.contains(&f))) || llgr_armed.contains(&f);
                    if !covered {
                        return Err(wit(Failure::new("routes-without-timer", format!("step #{i} ({op:?}): the session is down, the RIB still holds {n} route(s) of the peer in {f:?}, but neither the restart timer (armed: {gr_armed}, covering {kept_gr:?}) nor an LLGR timer for the family (armed for {llgr_armed:?}) is pending: nothing will ever remove them")).with("family_kept_by_gr", kept_gr.contains(&f))));
                    }
                }
                if let Some((name, may_keep)) = last_down
                    && !may_keep
                    && !rows.is_empty()
                {
                    return Err(wit(Failure::new("helper-mode-entered", format!("step #{i}: after a '{name}' disconnect, which never enters helper mode, the RIB still holds {} route(s) of the peer", rows.len()))));
                }
                if !gr_armed && !llgr_armed.is_empty() {
                    if let Some(r) = rows.iter().find(|r| no_llgr_marked.contains(&r.1) && llgr_armed.contains(&r.0)) {
                        return Err(wit(Failure::new("no-llgr-kept", format!("step #{i}: the LLGR period is running and {} (announced with NO_LLGR) is still in the RIB", r.1))));
                    }
                }
            }
            Some(l) => {
                for (fi, p) in &l.announced {
                    let key = format!("{:?}", nlri(FAMS[*fi], *p));
                    match rows.iter().find(|r| r.0 == FAMS[*fi] && r.1 == key) {
                        None => return Err(wit(Failure::new("fresh-route-purged", format!("step #{i} ({op:?}): {key}, announced on the current session, is no longer in the RIB")))),
                        Some(r) if r.2 => return Err(wit(Failure::new("fresh-route-purged", format!("step #{i} ({op:?}): {key}, announced on the current session, is marked stale")))),
                        _ => {}
                    }
                }
                for r in rows.iter().filter(|r| r.2) {
                    let fi = FAMS.iter().position(|f| *f == r.0).unwrap();
                    let awaiting = l.spec.gr && l.spec.gr_fams & l.spec.fams & (1 << fi) != 0 && !l.eor.contains(&fi);
                    if !awaiting {
                        return Err(wit(Failure::new("stale-while-up", format!("step #{i} ({op:?}): the session is up, {} in {:?} is still stale, but no End-of-RIB is awaited for that family (GR negotiated for it on this session: {}, End-of-RIB received: {})", r.1, r.0, l.spec.gr && l.spec.gr_fams & l.spec.fams & (1 << fi) != 0, l.eor.contains(&fi)))));
                    }
                }
            }
        }
    }
    Ok(info)
}

fn arb_spec() -> impl Strategy<Value = SessSpec> {
    (1u8..8, prop::bool::weighted(0.8), 0u8..8, prop_oneof![Just(5u16), Just(30), Just(120)], any::<bool>(), prop_oneof![3 => Just(0u8), 2 => 0u8..8], prop_oneof![Just(10u16), Just(60), Just(600)]).prop_map(|(fams, gr, gr_fams, restart, nbit, llgr_fams, llgr_time)| SessSpec { fams, gr, gr_fams, restart, nbit, llgr_fams, llgr_time })
}

pub fn arb_case(max: usize) -> impl Strategy<Value = Case> {
    let op = prop_oneof![
        4 => arb_spec().prop_map(Op::Up),
        2 => Just(Op::FailedConnect),
        4 => (0u8..9).prop_map(Op::Down),
        5 => (0u8..3, 0u8..4, prop::bool::weighted(0.2), prop::bool::weighted(0.25)).prop_map(|(fam, prefix, no_llgr, rejected)| Op::Announce { fam, prefix, no_llgr, rejected }),
        2 => (0u8..2, prop::bool::weighted(0.4)).prop_map(|(k, reachable)| Op::NextHop { k, reachable }),
        2 => (0u8..3).prop_map(Op::Eor),
        3 => prop_oneof![Just(1u16), Just(4), Just(6), Just(31), Just(59), Just(61), Just(125), Just(700)].prop_map(Op::Advance),
    ];
    (arb_spec(), proptest::collection::vec(op, 1..max)).prop_map(|(first, mut ops)| {
        ops.insert(0, Op::Up(first));
        Case { ops }
    })
}

pub fn run(r: &Run) {
    r.set_rule(RULE);
    r.assume("the tail of PeerSession::run (families to drop / to mark stale, which negotiated GR/LLGR parameters survive the disconnect reason) and the helper side of process_effects are repeated statement by statement in the event hook module; apply_disconnect, GrState, the timer tasks and the TableManager calls are the daemon's own; time is tokio's paused clock");
    r.assume("a received non-Cease NOTIFICATION is not generated: RFC 8538 lets it enter helper mode with the N-bit while the statement says non-Cease errors never do");
    r.prop("gr-histories", r.tier.pick(150_000, 3_000_000), || arb_case(r.tier.pick(16, 32)), check);
    r.assume(WIRE_RULE);
    r.slow(|| r.prop("gr-sessions", r.tier.pick(3_000, 100_000), || arb_case(r.tier.pick(12, 24)), check_wire));
}

pub fn replay(sub: &str, case: &Value) -> Result<CheckResult, String> {
    if sub == "gr-sessions" {
        return Ok(check_wire(&decode_case(case)?));
    }
    Ok(check(&decode_case(case)?))
}

// ---------------------------------------------------------------------------
// the same histories over real sessions: a wire-level peer (this file) against the
// daemon's accept_connection + PeerSession::run on loopback TCP, tokio's paused clock for
// the restart / LLGR / hold timers. Nothing of the daemon is repeated: OPEN negotiation
// (negotiate_gr / negotiate_llgr), UPDATE / End-of-RIB reception, the disconnect tail of
// session_loop, apply_disconnect, the timer tasks, DisablePeer (force_down) all run.
// ---------------------------------------------------------------------------

pub const WIRE_RULE: &str = "gr-sessions: the same histories over real sessions: the neighbour is configured with GR (N-bit) and LLGR for all three families, hold time 30; the check is the remote peer on a loopback TCP connection: \
OPEN with the generated Multiprotocol / Graceful-Restart (families, restart time, N-bit) / LLGR (families, stale time) capabilities, UPDATEs (optionally NO_LLGR), End-of-RIB, and session ends by FIN, RST, received Cease (admin shutdown / hard reset), \
hold-timer expiry (clock advanced past the hold time), gRPC DisablePeer (+EnablePeer), an OPEN in Established (FSM error), an UPDATE with an over-long attribute block (UPDATE error); a connection closed before its OPEN; DisablePeer while the session is down (forced peer-down: pending timers fire). \
Time passes (paused clock) only while the session is down. Same invariants, read from the daemon's RIB and the peer's timer slots after every step";

const WIRE_AS: u32 = 65100;

struct Client {
    stream: tokio::net::TcpStream,
    codec: bgp::PeerCodec,
    task: Option<tokio::task::JoinHandle<()>>,
    frames: u64,
}

pub struct WireRig {
    pub rig: crate::event::verif::AdmitRig,
    pub src: IpAddr,
    client: Option<Client>,
    /// frames the daemon has counted before the current connection
    base: u64,
    start: tokio::time::Instant,
    pub advanced: Duration,
}

fn h(e: impl ToString) -> Failure {
    Failure::new("harness", e.to_string())
}

impl WireRig {
    pub async fn new() -> Result<WireRig, Failure> {
        use crate::event::verif::{AdmitRig, NeighborCfg};
        let src = crate::props::wirepeer::fresh_loopback();
        let rig = AdmitRig::new(65000, None).await.map_err(h)?;
        let cfg = NeighborCfg {
            addr: src,
            remote_asn: WIRE_AS,
            local_asn: 0,
            rs_client: false,
            rr_client: false,
            cluster_id: None,
            admin_down: false,
            holdtime: 30,
            families: FAMS.iter().map(|f| (*f, 0)).collect(),
            prefix_limit: None,
            gr: Some((120, true, FAMS.to_vec())),
            llgr: Some(FAMS.iter().map(|f| (*f, 3600)).collect()),
        };
        if !rig.add_neighbor(&cfg).await {
            return Err(h("add_peer refuses the GR neighbour"));
        }
        Ok(WireRig { rig, src, client: None, base: 0, start: tokio::time::Instant::now(), advanced: Duration::ZERO })
    }

    /// the paused clock moved although the check did not advance it (runtime auto-advance while waiting for I/O)
    pub fn clock_moved(&self) -> bool {
        let now = tokio::time::Instant::now();
        now.duration_since(self.start) > self.advanced + Duration::from_millis(50)
    }

    pub async fn settle(&mut self) {
        for _ in 0..3 {
            std::thread::sleep(Duration::from_micros(150));
            for _ in 0..8 {
                tokio::task::yield_now().await;
            }
        }
    }

    fn drain(&mut self) -> bool {
        // returns true when the daemon closed the connection
        let Some(c) = self.client.as_mut() else { return true };
        let mut buf = [0u8; 8192];
        loop {
            match c.stream.try_read(&mut buf) {
                Ok(0) => return true,
                Ok(_) => {}
                Err(e) if e.kind() == std::io::ErrorKind::WouldBlock => return false,
                Err(_) => return true,
            }
        }
    }

    async fn send(&mut self, msg: &bgp::Message) -> Result<(), Failure> {
        use tokio::io::AsyncWriteExt;
        let base = self.base;
        let src = self.src;
        let Some(c) = self.client.as_mut() else { return Err(h("no connection")) };
        let mut buf = bytes::BytesMut::new();
        let n = c.codec.encode_to(msg, &mut buf).map_err(|e| h(format!("encode: {e:?}")))?;
        c.stream.write_all(&buf).await.map_err(h)?;
        c.frames += n.max(1) as u64;
        let want = base + c.frames;
        // the daemon has read it
        for _ in 0..2000 {
            self.settle().await;
            if self.rig.rx_frames(src).await >= want {
                return Ok(());
            }
            if self.drain() {
                return Ok(()); // it closed the connection (the message was the reason, or the session was already going down)
            }
        }
        Err(h("the daemon did not read a message within the real-time budget"))
    }

    async fn send_raw(&mut self, bytes: &[u8]) -> Result<(), Failure> {
        use tokio::io::AsyncWriteExt;
        let Some(c) = self.client.as_mut() else { return Err(h("no connection")) };
        c.stream.write_all(bytes).await.map_err(h)?;
        Ok(())
    }

    async fn connect(&mut self) -> Result<(), Failure> {
        self.base = self.rig.rx_frames(self.src).await;
        let (view, mut conn) = self.rig.connect_now(self.src, false).await.map_err(h)?;
        if view.is_none() {
            return Err(h("the connection was not admitted"));
        }
        let stream = conn.client.take().ok_or_else(|| h("no client socket"))?;
        self.client = Some(Client { stream, codec: bgp::PeerCodec::new(), task: conn.task.take(), frames: 0 });
        self.settle().await;
        Ok(())
    }

    /// wait (real time, clock untouched) until the daemon's session task of the current connection has ended
    async fn wait_task_end(&mut self) -> Result<(), Failure> {
        let Some(mut c) = self.client.take() else { return Ok(()) };
        for _ in 0..12000 {
            self.settle().await;
            let mut buf = [0u8; 8192];
            while let Ok(n) = c.stream.try_read(&mut buf) {
                if n == 0 {
                    break;
                }
            }
            if c.task.as_ref().is_none_or(|t| t.is_finished()) {
                return Ok(());
            }
        }
        Err(Failure::new("session-task-hangs", "the daemon's session task did not end after the connection went down".to_string()))
    }

    pub async fn up(&mut self, spec: &SessSpec) -> Result<(), Failure> {
        self.connect().await?;
        let fams = fams_of(spec.fams);
        let gr_f: Vec<Family> = if spec.gr { fams_of(spec.gr_fams & spec.fams) } else { vec![] };
        let llgr_f = fams_of(spec.llgr_fams & spec.fams);
        let mut caps: Vec<bgp::Capability> = fams.iter().map(|f| bgp::Capability::MultiProtocol(*f)).collect();
        caps.push(bgp::Capability::FourOctetAsNumber(WIRE_AS));
        if spec.gr {
            caps.push(bgp::Capability::GracefulRestart { flags: if spec.nbit { 0x4 } else { 0 }, restart_time: spec.restart, families: gr_f.iter().map(|f| (*f, 0x80)).collect() });
        }
        if !llgr_f.is_empty() {
            caps.push(bgp::Capability::LongLivedGracefulRestart(llgr_f.iter().map(|f| (*f, 0x80, spec.llgr_time as u32)).collect()));
        }
        let open = bgp::Message::Open(bgp::Open { as_number: WIRE_AS, holdtime: bgp::HoldTime::new(30).unwrap(), router_id: 0x0202_0202, capability: caps });
        self.send(&open).await?;
        self.send(&bgp::Message::Keepalive).await?;
        if let Some(c) = self.client.as_mut() {
            for f in &fams {
                c.codec.set_family(*f, bgp::FamilyState { addpath_rx: false, addpath_tx: false });
            }
        }
        for _ in 0..2000 {
            self.settle().await;
            if let Some((_, p)) = self.rig.fsm_states(self.src).await
                && p == crate::fsm::State::Established
            {
                self.drain();
                return Ok(());
            }
        }
        Err(h("OPEN + KEEPALIVE did not establish the session"))
    }

    pub async fn failed_connect(&mut self) -> Result<(), Failure> {
        self.connect().await?;
        // the remote end goes away before sending its OPEN
        let task = self.client.as_mut().and_then(|c| c.task.take());
        self.client = None;
        if let Some(t) = task {
            for _ in 0..12000 {
                self.settle().await;
                if t.is_finished() {
                    return Ok(());
                }
            }
            return Err(Failure::new("session-task-hangs", "the daemon's session task did not end after a connection was closed before its OPEN".to_string()));
        }
        Ok(())
    }

    pub async fn announce(&mut self, family: Family, nlri: packet::Nlri, nh4: Ipv4Addr, attrs: Vec<packet::Attribute>) -> Result<(), Failure> {
        let nexthop = match family {
            Family::IPV6 => Nexthop::V6("2001:db8::1".parse().unwrap()),
            _ => Nexthop::V4(nh4),
        };
        let msg = bgp::Message::Update(bgp::Update::Reach { family, entries: vec![PathNlri { path_id: 0, nlri }], nexthop: Some(nexthop), attr: Arc::new(attrs) });
        self.send(&msg).await
    }

    pub async fn eor(&mut self, family: Family) -> Result<(), Failure> {
        self.send(&bgp::Message::Update(bgp::Update::EndOfRib(family))).await
    }

    pub async fn forced_down(&mut self) -> Result<(), Failure> {
        self.rig.disable_peer(self.src, true).await.map_err(h)?;
        self.settle().await;
        Ok(())
    }

    pub async fn down(&mut self, r: u8) -> Result<(), Failure> {
        match r {
            0 => {}
            1 => {
                if let Some(c) = self.client.as_ref() {
                    let _ = c.stream.set_linger(Some(Duration::ZERO));
                }
            }
            2 => self.send(&bgp::Message::Notification(packet::Notification::CeaseAdminShutdown)).await?,
            3 => self.send(&bgp::Message::Notification(packet::Notification::CeaseHardReset)).await?,
            5 => {
                // nothing is sent for longer than the negotiated hold time
                tokio::time::advance(Duration::from_secs(31)).await;
                self.advanced += Duration::from_secs(31);
                return self.wait_task_end().await;
            }
            6 => {
                self.rig.disable_peer(self.src, false).await.map_err(h)?;
                self.wait_task_end().await?;
                return self.rig.disable_peer(self.src, true).await.map_err(h);
            }
            7 => {
                let open = bgp::Message::Open(bgp::Open { as_number: WIRE_AS, holdtime: bgp::HoldTime::new(30).unwrap(), router_id: 0x0202_0202, capability: vec![bgp::Capability::FourOctetAsNumber(WIRE_AS)] });
                self.send(&open).await?;
                return self.wait_task_end().await;
            }
            8 => {
                // total path attribute length runs past the end of the message
                let mut m = vec![0xffu8; 16];
                m.extend_from_slice(&[0, 27, 2, 0, 0, 0, 40, 0x40, 1, 1, 0]);
                self.send_raw(&m).await?;
                return self.wait_task_end().await;
            }
            _ => return Err(h("reason not produced over the wire")),
        }
        // the remote end goes away
        if let Some(c) = self.client.as_mut() {
            use tokio::io::AsyncWriteExt;
            if r != 1 {
                let _ = c.stream.shutdown().await;
            }
        }
        let task = self.client.as_mut().and_then(|c| c.task.take());
        self.client = None; // closes the socket (RST when linger 0)
        if let Some(t) = task {
            for _ in 0..12000 {
                self.settle().await;
                if t.is_finished() {
                    return Ok(());
                }
            }
            return Err(Failure::new("session-task-hangs", "the daemon's session task did not end after the connection was closed".to_string()));
        }
        Ok(())
    }
}

pub fn check_wire(c: &Case) -> CheckResult {
    let rt = tokio::runtime::Builder::new_current_thread().enable_all().start_paused(true).event_interval(1).build().map_err(|e| Failure::new("harness", e.to_string()))?;
    rt.block_on(async {
        let w = WireRig::new().await?;
        run_on(c, Some(w)).await
    })
}
