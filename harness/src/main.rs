// rbverif — property-based-testing / fuzzing harness for osrg/rustybgp.
//
// This crate re-hosts the (binary-only) daemon crate of /repo by including its
// modules through #[path]; the module layout mirrors /repo/daemon/src/main.rs so
// that `crate::api`, `crate::config`, `crate::fsm` ... resolve exactly as they do
// in the daemon. It is built as a `harness = false` test target so cfg(test)
// helpers of the daemon (e.g. PeerSession::new_for_test) exist.
#![recursion_limit = "1024"]
#![allow(dead_code, unused_imports, unused_variables, unreachable_pub, clippy::all)]

pub(crate) use rustybgp_api as api;
pub(crate) use rustybgp_config as config;

#[path = "/repo/daemon/src/auth.rs"]
mod auth;
#[path = "/repo/daemon/src/bfd.rs"]
mod bfd;
#[path = "/repo/daemon/src/bmp.rs"]
mod bmp;
#[path = "/repo/daemon/src/convert.rs"]
mod convert;
#[path = "/repo/daemon/src/error.rs"]
mod error;
#[path = "/repo/daemon/src/event/mod.rs"]
mod event;
#[path = "/repo/daemon/src/fsm.rs"]
mod fsm;
#[path = "/repo/daemon/src/gr.rs"]
mod gr;
#[path = "/repo/daemon/src/mrt.rs"]
mod mrt;
#[path = "/repo/daemon/src/peer_tx.rs"]
mod peer_tx;
#[path = "/repo/daemon/src/proto.rs"]
mod proto;
#[path = "/repo/daemon/src/rpki.rs"]
mod rpki;
#[path = "/repo/daemon/src/rtc.rs"]
mod rtc;
#[path = "/repo/daemon/src/table_manager.rs"]
mod table_manager;

#[macro_use]
mod common;
mod cgen;
mod model;
mod props;
mod wire;

use common::{Run, Tier};

type RunFn = fn(&Run);
type ReplayFn = fn(&str, &serde_json::Value) -> Result<common::CheckResult, String>;

fn registry(id: &str) -> Option<(&'static str, RunFn, ReplayFn)> {
    Some(match id {
        "C13" => ("C13", props::c13::run, props::c13::replay),
        "C14" => ("C14", props::c14::run, props::c14::replay),
        "C15" => ("C15", props::c15::run, props::c15::replay),
        "C16" => ("C16", props::c16::run, props::c16::replay),
        "C17" => ("C17", props::c17::run, props::c17::replay),
        "C18" => ("C18", props::c18::run, props::c18::replay),
        "C19" => ("C19", props::c19::run, props::c19::replay),
        "C20" => ("C20", props::c20::run, props::c20::replay),
        "C01" => ("C01", props::c01::run, props::c01::replay),
        "C02" => ("C02", props::c02::run, props::c02::replay),
        "C03" => ("C03", props::c03::run, props::c03::replay),
        "C04" => ("C04", props::c04::run, props::c04::replay),
        "C05" => ("C05", props::c05::run, props::c05::replay),
        "C06" => ("C06", props::c06::run, props::c06::replay),
        "C07" => ("C07", props::c07::run, props::c07::replay),
        "C08" => ("C08", props::c08::run, props::c08::replay),
        "C09" => ("C09", props::c09::run, props::c09::replay),
        "C10" => ("C10", props::c10::run, props::c10::replay),
        "C11" => ("C11", props::c11::run, props::c11::replay),
        "C12" => ("C12", props::c12::run, props::c12::replay),
        _ => return None,
    })
}

fn usage() -> ! {
    eprintln!("usage: rbverif <ID> <quick|thorough> [--evidence <path>]\n       rbverif <ID> --replay <file>");
    std::process::exit(2);
}

fn main() {
    common::install_panic_hook();
    let args: Vec<String> = std::env::args().skip(1).collect();
    if args.len() < 2 {
        usage();
    }
    let Some((id, run_fn, replay_fn)) = registry(&args[0]) else {
        eprintln!("INCONCLUSIVE: no check registered for {}", args[0]);
        std::process::exit(2);
    };
    let seed: u64 = std::env::var("VERIF_SEED")
        .ok()
        .and_then(|s| s.trim().parse::<i128>().ok())
        .map(|v| v as u64)
        .unwrap_or(1);
    if args[0] == "C03" && args[1] == "--gen-corpus" {
        let dir = args.get(2).cloned().unwrap_or_else(|| format!("{}/corpus", common::verif_root()));
        match props::c03::gen_corpus(&dir) {
            Ok(n) => {
                println!("wrote {n} seed inputs under {dir}");
                std::process::exit(0);
            }
            Err(e) => {
                eprintln!("INCONCLUSIVE: {e}");
                std::process::exit(2);
            }
        }
    }
    if args[0] == "C03" && args[1] == "--from-fuzz" {
        // rbverif C03 --from-fuzz <target> <artifact> : judge a libFuzzer artifact with the harness oracle
        let (Some(target), Some(file)) = (args.get(2), args.get(3)) else { usage() };
        let data = std::fs::read(file).unwrap_or_else(|e| {
            eprintln!("INCONCLUSIVE: {e}");
            std::process::exit(2)
        });
        let case = props::c03::case_from_fuzz(target, data);
        let run = Run::new(id, Tier::Thorough, seed);
        let out = match common::catch(|| props::c03::check(&case)) {
            Ok(r) => r,
            Err(p) => Err(p.into_failure("fuzz-artifact")),
        };
        match out {
            Ok(_) => {
                println!("NOTE: artifact {file} passes the harness oracle (fuzz target and harness disagree)");
                std::process::exit(3);
            }
            Err(f) => {
                if let Some(fid) = run.open_match(&f) {
                    println!("KNOWN-FINDING: property={id} [{fid}] reproduced by fuzz artifact {file}");
                    std::process::exit(0);
                }
                run.record_violation(&format!("fuzz-{target}"), &serde_json::to_value(&case).unwrap(), f);
                std::process::exit(1);
            }
        }
    }
    if args[1] == "--replay" {
        let path = args.get(2).unwrap_or_else(|| usage());
        let text = std::fs::read_to_string(path).unwrap_or_else(|e| {
            eprintln!("INCONCLUSIVE: cannot read {path}: {e}");
            std::process::exit(2)
        });
        let doc: serde_json::Value = serde_json::from_str(&text).unwrap_or_else(|e| {
            eprintln!("INCONCLUSIVE: cannot parse {path}: {e}");
            std::process::exit(2)
        });
        let sub = doc["sub"].as_str().unwrap_or("").to_string();
        if doc["failure"]["kind"] == "stall" {
            // the saved case did not return when it was found: replay it under a watchdog
            let (p2, s2) = (path.clone(), sub.clone());
            std::thread::spawn(move || {
                std::thread::sleep(std::time::Duration::from_secs(60));
                println!("VIOLATION property={id} replay={p2}");
                println!("  sub-check {s2}: [stall] the code under test did not return within 60 s on this input");
                std::process::exit(1);
            });
        }
        let out = match common::catch(|| replay_fn(&sub, &doc["case"])) {
            Ok(Ok(r)) => r,
            Ok(Err(e)) => {
                eprintln!("INCONCLUSIVE: {e}");
                std::process::exit(2);
            }
            Err(p) => Err(p.into_failure(&sub)),
        };
        match out {
            Ok(_) => {
                println!("REPLAY-OK property={id} sub={sub} profile={} : the case passes", common::profile_name());
                std::process::exit(0);
            }
            Err(f) => {
                println!("VIOLATION property={id} replay={path}");
                println!("  sub-check {sub}: [{}] {}", f.kind, f.msg);
                println!("  witness: {}", f.witness);
                std::process::exit(1);
            }
        }
    }
    let tier = match args[1].as_str() {
        "quick" => Tier::Quick,
        "thorough" => Tier::Thorough,
        _ => usage(),
    };
    let mut evidence = format!("{}/evidence/{id}.json", common::verif_root());
    if let Some(i) = args.iter().position(|a| a == "--evidence") {
        evidence = args.get(i + 1).cloned().unwrap_or_else(|| usage());
    }
    let run = Run::new(id, tier, seed);
    *run.evidence_path.lock().unwrap() = evidence.clone();
    run.check_findings(&|sub, case| replay_fn(sub, case));
    run_fn(&run);
    run.write_evidence(&evidence);
    if run.has_violation() {
        std::process::exit(1);
    }
    let skipped = run.harness_skipped.load(std::sync::atomic::Ordering::Relaxed);
    if skipped > 0 {
        println!("NOTE property={id}: {skipped} case(s) could not be run by the harness itself and were skipped ({})", run.harness_note.lock().unwrap().clone().unwrap_or_default());
        if skipped > 200 {
            // too many to call the run a decision: inconclusive, not a violation
            eprintln!("INCONCLUSIVE: the harness could not run {skipped} cases");
            std::process::exit(2);
        }
    }
    println!("OK property={id} tier={} seed={seed} profile={}", tier.name(), common::profile_name());
}
