//! Minimal protobuf wire-format walker and field-level mutator.
//!
//! The gRPC API accepts any protobuf-valid message, so "all API messages with
//! arbitrary field values" is generated here by taking a well-formed message
//! (produced by the repository's own `*_to_api` converters or built by hand),
//! serialising it with prost, changing individual fields on the wire level
//! (extreme integers, malformed strings, over-long repeated fields, dropped /
//! duplicated / renumbered fields) and decoding the result with prost again.
//! Nothing here knows the schema: every field of every nested message is reachable.

use serde::{Deserialize, Serialize};

#[derive(Clone, Debug, PartialEq)]
pub enum Val {
    Varint(u64),
    F64([u8; 8]),
    F32([u8; 4]),
    Len(Vec<u8>),
}

#[derive(Clone, Debug, PartialEq)]
pub struct Field {
    pub num: u32,
    pub val: Val,
}

fn get_varint(b: &[u8], pos: &mut usize) -> Option<u64> {
    let mut v: u64 = 0;
    for i in 0..10 {
        let byte = *b.get(*pos)?;
        *pos += 1;
        v |= ((byte & 0x7f) as u64) << (7 * i);
        if byte & 0x80 == 0 {
            return Some(v);
        }
    }
    None
}

fn put_varint(mut v: u64, out: &mut Vec<u8>) {
    loop {
        let b = (v & 0x7f) as u8;
        v >>= 7;
        if v == 0 {
            out.push(b);
            return;
        }
        out.push(b | 0x80);
    }
}

/// strict parse: the whole slice must be a sequence of fields
pub fn parse(b: &[u8]) -> Option<Vec<Field>> {
    let mut pos = 0usize;
    let mut out = Vec::new();
    while pos < b.len() {
        let key = get_varint(b, &mut pos)?;
        let num = (key >> 3) as u32;
        if num == 0 || key >> 3 > 0x1fff_ffff {
            return None;
        }
        let val = match key & 7 {
            0 => Val::Varint(get_varint(b, &mut pos)?),
            1 => {
                let s = b.get(pos..pos + 8)?;
                pos += 8;
                Val::F64(s.try_into().ok()?)
            }
            5 => {
                let s = b.get(pos..pos + 4)?;
                pos += 4;
                Val::F32(s.try_into().ok()?)
            }
            2 => {
                let n = get_varint(b, &mut pos)? as usize;
                let s = b.get(pos..pos.checked_add(n)?)?;
                pos += n;
                Val::Len(s.to_vec())
            }
            _ => return None,
        };
        out.push(Field { num, val });
    }
    Some(out)
}

pub fn emit(fields: &[Field]) -> Vec<u8> {
    let mut out = Vec::new();
    for f in fields {
        let wt = match &f.val {
            Val::Varint(_) => 0u64,
            Val::F64(_) => 1,
            Val::Len(_) => 2,
            Val::F32(_) => 5,
        };
        put_varint(((f.num as u64) << 3) | wt, &mut out);
        match &f.val {
            Val::Varint(v) => put_varint(*v, &mut out),
            Val::F64(b) => out.extend_from_slice(b),
            Val::F32(b) => out.extend_from_slice(b),
            Val::Len(b) => {
                put_varint(b.len() as u64, &mut out);
                out.extend_from_slice(b);
            }
        }
    }
    out
}

#[derive(Clone, Debug, Serialize, Deserialize, PartialEq)]
pub enum MutKind {
    /// set an integer field (varint / fixed) to this value; on a length-delimited
    /// field: set element `idx` of the packed varint list it is read as
    Int { v: u64, idx: u16 },
    /// replace the payload of a length-delimited field (string / bytes / packed list)
    Bytes(Vec<u8>),
    Text(String),
    /// drop the field
    Delete,
    /// length-delimited: payload concatenated `n` times (longer string, more packed
    /// elements, nested message with its repeated fields multiplied)
    RepeatPayload(u32),
    /// the whole field emitted `n` times (repeated messages / strings get n entries)
    DupField(u32),
    /// move the field to another field number (other oneof arm, unknown field)
    Renumber(u32),
    /// cut the payload of a length-delimited field
    Truncate(u16),
    /// append raw fields to the message holding the addressed field
    Inject { num: u32, v: u64 },
}

#[derive(Clone, Debug, Serialize, Deserialize, PartialEq)]
pub struct Mutation {
    /// one index per nesting level, mapped monotonically onto the fields present
    pub path: Vec<u16>,
    pub kind: MutKind,
}

fn pick(x: u16, len: usize) -> usize {
    ((x as usize) * len) >> 16
}

const MAX_OUT: usize = 4 << 20;

fn apply_at(fields: &mut Vec<Field>, i: usize, kind: &MutKind) {
    match kind {
        MutKind::Int { v, idx } => match &mut fields[i].val {
            Val::Varint(x) => *x = *v,
            Val::F64(b) => *b = v.to_le_bytes(),
            Val::F32(b) => *b = (*v as u32).to_le_bytes(),
            Val::Len(p) => {
                // packed varints
                let mut pos = 0;
                let mut items = Vec::new();
                let mut ok = true;
                while pos < p.len() {
                    match get_varint(p, &mut pos) {
                        Some(x) => items.push(x),
                        None => {
                            ok = false;
                            break;
                        }
                    }
                }
                if ok && !items.is_empty() {
                    let k = pick(*idx, items.len());
                    items[k] = *v;
                    let mut out = Vec::new();
                    for x in items {
                        put_varint(x, &mut out);
                    }
                    *p = out;
                } else {
                    let mut out = Vec::new();
                    put_varint(*v, &mut out);
                    *p = out;
                }
            }
        },
        MutKind::Bytes(b) => match &mut fields[i].val {
            Val::Len(p) => *p = b.clone(),
            Val::Varint(x) => *x = b.len() as u64,
            _ => {}
        },
        MutKind::Text(s) => match &mut fields[i].val {
            Val::Len(p) => *p = s.as_bytes().to_vec(),
            Val::Varint(x) => *x = s.len() as u64,
            _ => {}
        },
        MutKind::Delete => {
            fields.remove(i);
        }
        MutKind::RepeatPayload(n) => {
            if let Val::Len(p) = &mut fields[i].val {
                let n = (*n as usize).max(1);
                if p.len().saturating_mul(n) <= MAX_OUT {
                    let one = p.clone();
                    for _ in 1..n {
                        p.extend_from_slice(&one);
                    }
                }
            } else {
                let f = fields[i].clone();
                for _ in 1..(*n).min(70_000) {
                    fields.insert(i, f.clone());
                }
            }
        }
        MutKind::DupField(n) => {
            let f = fields[i].clone();
            let sz = match &f.val {
                Val::Len(p) => p.len() + 4,
                _ => 6,
            };
            let n = (*n as usize).min(MAX_OUT / sz.max(1)).max(1);
            let mut extra = vec![f; n - 1];
            let tail = fields.split_off(i);
            fields.append(&mut extra);
            fields.extend(tail);
        }
        MutKind::Renumber(n) => {
            fields[i].num = (*n).clamp(1, 0x1fff_ffff);
        }
        MutKind::Truncate(k) => {
            if let Val::Len(p) = &mut fields[i].val {
                let keep = pick(*k, p.len() + 1);
                p.truncate(keep);
            }
        }
        MutKind::Inject { num, v } => {
            fields.push(Field { num: (*num).clamp(1, 0x1fff_ffff), val: Val::Varint(*v) });
        }
    }
}

fn apply_rec(bytes: &[u8], path: &[u16], kind: &MutKind) -> Vec<u8> {
    let Some(mut fields) = parse(bytes) else { return bytes.to_vec() };
    if fields.is_empty() {
        if let MutKind::Inject { num, v } = kind {
            fields.push(Field { num: (*num).clamp(1, 0x1fff_ffff), val: Val::Varint(*v) });
        }
        return emit(&fields);
    }
    let Some((first, rest)) = path.split_first() else { return bytes.to_vec() };
    let i = pick(*first, fields.len());
    let nested = match &fields[i].val {
        Val::Len(p) if !rest.is_empty() && !p.is_empty() => parse(p).is_some_and(|f| !f.is_empty()),
        _ => false,
    };
    if nested {
        if let Val::Len(p) = &fields[i].val {
            let np = apply_rec(p, rest, kind);
            fields[i].val = Val::Len(np);
        }
    } else {
        apply_at(&mut fields, i, kind);
    }
    emit(&fields)
}

pub fn mutate(bytes: &[u8], muts: &[Mutation]) -> Vec<u8> {
    let mut cur = bytes.to_vec();
    for m in muts {
        cur = apply_rec(&cur, &m.path, &m.kind);
        if cur.len() > MAX_OUT {
            break;
        }
    }
    cur
}

/// number of fields, counting nested messages (what a path can address)
pub fn field_count(bytes: &[u8]) -> usize {
    match parse(bytes) {
        None => 0,
        Some(f) => f
            .iter()
            .map(|x| match &x.val {
                Val::Len(p) if !p.is_empty() => 1 + field_count(p),
                _ => 1,
            })
            .sum(),
    }
}

// ---------------------------------------------------------------------------
// proptest strategies
// ---------------------------------------------------------------------------

use proptest::prelude::*;

pub fn nasty_u64() -> impl Strategy<Value = u64> {
    prop_oneof![
        6 => prop::sample::select(vec![
            0u64, 1, 2, 3, 4, 5, 6, 7, 8, 9, 12, 13, 14, 15, 16, 17, 24, 25, 31, 32, 33, 40, 63, 64, 65, 96, 120, 127, 128, 129, 192, 200, 254, 255, 256, 257, 1023, 4095, 4096,
            65534, 65535, 65536, 0xff_ffff, 0x100_0000, 0x7fff_ffff, 0x8000_0000, 0xffff_fffe, 0xffff_ffff, 0x1_0000_0000, u64::MAX, u64::MAX - 1, 0xffff_ffff_ffff_ff80,
        ]),
        2 => any::<u64>(),
        2 => (0u64..300),
    ]
}

pub fn nasty_text() -> impl Strategy<Value = String> {
    prop_oneof![
        4 => prop::sample::select(vec![
            "", " ", "x", "garbage", "0", "1.2.3.4", "1.2.3", "1.2.3.4.5", "256.1.1.1", "01.2.3.4", "1.2.3.4/24", "1.2.3.4/33", "0.0.0.0", "255.255.255.255", " 1.2.3.4", "1.2.3.4 ",
            "::", "::1", "::/0", "2001:db8::1", "2001:db8::1/64", "2001:db8::1/129", "fe80::1%eth0", "::ffff:1.2.3.4", "2001:db8:::1", "1:2:3:4:5:6:7:8:9", "[::1]",
            "10.0.0.0/8", "10.0.0.0/-1", "10.0.0.0/256", "10.0.0.0/", "/24", "::/129", "::/255", "aa:bb:cc:dd:ee:ff", "aa:bb:cc:dd:ee", "aa:bb:cc:dd:ee:ff:00", "zz:bb:cc:dd:ee:ff", "aabb.ccdd.eeff",
            "0000.0000.0001", "0000.0000.0001-02", "1.1.1.1:100", "65000:100", "\u{0}", "é", "１.２.３.４",
        ]).prop_map(|s| s.to_string()),
        1 => "[ -~]{0,40}",
        1 => (1usize..2000).prop_map(|n| "9".repeat(n)),
        1 => (any::<u32>()).prop_map(|a| std::net::Ipv4Addr::from(a).to_string()),
        1 => (any::<u128>()).prop_map(|a| std::net::Ipv6Addr::from(a).to_string()),
        1 => (any::<u32>(), 0u32..140).prop_map(|(a, l)| format!("{}/{}", std::net::Ipv4Addr::from(a), l)),
        1 => (any::<u128>(), 0u32..140).prop_map(|(a, l)| format!("{}/{}", std::net::Ipv6Addr::from(a), l)),
    ]
}

pub fn nasty_bytes() -> impl Strategy<Value = Vec<u8>> {
    prop_oneof![
        3 => prop::sample::select(vec![0usize, 1, 2, 3, 4, 5, 6, 7, 8, 9, 10, 11, 12, 13, 15, 16, 17, 20, 24, 32, 255, 256, 257]).prop_flat_map(|n| proptest::collection::vec(any::<u8>(), n..=n)),
        1 => proptest::collection::vec(any::<u8>(), 0..40),
        1 => (any::<u8>(), prop::sample::select(vec![4usize, 8, 16, 255, 256, 4096, 5000, 66000])).prop_map(|(b, n)| vec![b; n]),
    ]
}

pub fn arb_mutation() -> impl Strategy<Value = Mutation> {
    let kind = prop_oneof![
        6 => (nasty_u64(), any::<u16>()).prop_map(|(v, idx)| MutKind::Int { v, idx }),
        4 => nasty_text().prop_map(MutKind::Text),
        3 => nasty_bytes().prop_map(MutKind::Bytes),
        2 => Just(MutKind::Delete),
        3 => prop::sample::select(vec![2u32, 3, 16, 63, 64, 65, 127, 128, 254, 255, 256, 257, 300, 1024, 1100, 4096, 16384, 20000, 66000]).prop_map(MutKind::RepeatPayload),
        3 => prop::sample::select(vec![2u32, 3, 16, 63, 64, 65, 127, 128, 254, 255, 256, 257, 300, 1024, 1100, 4096, 16384, 66000]).prop_map(MutKind::DupField),
        1 => (1u32..30).prop_map(MutKind::Renumber),
        1 => any::<u16>().prop_map(MutKind::Truncate),
        1 => (1u32..12, nasty_u64()).prop_map(|(num, v)| MutKind::Inject { num, v }),
    ];
    (proptest::collection::vec(any::<u16>(), 1..5), kind).prop_map(|(path, kind)| Mutation { path, kind })
}

pub fn arb_mutations(max: usize) -> impl Strategy<Value = Vec<Mutation>> {
    prop_oneof![
        1 => Just(Vec::new()),
        5 => proptest::collection::vec(arb_mutation(), 1..=1),
        3 => proptest::collection::vec(arb_mutation(), 2..=max.max(2)),
    ]
}
