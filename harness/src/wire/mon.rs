//! Independent structural readers for BMP (RFC 7854 / 8671 / 9069) and MRT (RFC 6396 /
//! 8050) written from the RFCs; they share no code with the repository's encoders.

use std::net::{IpAddr, Ipv4Addr, Ipv6Addr};

fn be16(b: &[u8]) -> u16 {
    u16::from_be_bytes([b[0], b[1]])
}
fn be32(b: &[u8]) -> u32 {
    u32::from_be_bytes([b[0], b[1], b[2], b[3]])
}

/// split a byte string into BGP PDUs by marker + length; every PDU must be whole
pub fn split_bgp(b: &[u8]) -> Result<Vec<&[u8]>, String> {
    let mut out = Vec::new();
    let mut pos = 0;
    while pos < b.len() {
        if b.len() - pos < 19 {
            return Err(format!("{} trailing bytes are shorter than a BGP header", b.len() - pos));
        }
        if b[pos..pos + 16] != [0xff; 16] {
            return Err(format!("no BGP marker at offset {pos}"));
        }
        let len = be16(&b[pos + 16..]) as usize;
        if len < 19 {
            return Err(format!("BGP length {len} < 19"));
        }
        if pos + len > b.len() {
            return Err(format!("BGP length {len} at offset {pos} overruns the {} bytes present", b.len() - pos));
        }
        out.push(&b[pos..pos + len]);
        pos += len;
    }
    Ok(out)
}

#[derive(Debug, Clone, PartialEq)]
pub struct BmpPeer {
    pub peer_type: u8,
    pub flags: u8,
    pub distinguisher: u64,
    pub addr: IpAddr,
    pub asn: u32,
    pub id: Ipv4Addr,
    pub ts: u32,
    pub ts_us: u32,
}

#[derive(Debug, Clone, PartialEq)]
pub enum BmpBody {
    RouteMonitoring { peer: BmpPeer, pdus: Vec<Vec<u8>> },
    PeerUp { peer: BmpPeer, local: IpAddr, local_port: u16, remote_port: u16, sent_open: Vec<u8>, received_open: Vec<u8>, info: Vec<(u16, Vec<u8>)> },
    PeerDown { peer: BmpPeer, reason: u8, data: Vec<u8> },
    Initiation(Vec<(u16, Vec<u8>)>),
    Termination(Vec<(u16, Vec<u8>)>),
    Other(u8, Vec<u8>),
}

fn addr16(b: &[u8], v6: bool) -> Result<IpAddr, String> {
    if v6 {
        let a: [u8; 16] = b[..16].try_into().unwrap();
        Ok(IpAddr::V6(Ipv6Addr::from(a)))
    } else {
        if b[..12] != [0u8; 12] {
            return Err("address field of an IPv4 peer (V flag clear) has non-zero bytes in its first 12 octets".into());
        }
        Ok(IpAddr::V4(Ipv4Addr::new(b[12], b[13], b[14], b[15])))
    }
}

fn per_peer(b: &[u8]) -> Result<(BmpPeer, &[u8]), String> {
    if b.len() < 42 {
        return Err(format!("per-peer header needs 42 bytes, {} present", b.len()));
    }
    let flags = b[1];
    let addr = addr16(&b[10..26], flags & 0x80 != 0)?;
    Ok((
        BmpPeer { peer_type: b[0], flags, distinguisher: u64::from_be_bytes(b[2..10].try_into().unwrap()), addr, asn: be32(&b[26..]), id: Ipv4Addr::new(b[30], b[31], b[32], b[33]), ts: be32(&b[34..]), ts_us: be32(&b[38..]) },
        &b[42..],
    ))
}

fn tlvs(mut b: &[u8]) -> Result<Vec<(u16, Vec<u8>)>, String> {
    let mut out = Vec::new();
    while !b.is_empty() {
        if b.len() < 4 {
            return Err("information TLV header cut short".into());
        }
        let (t, l) = (be16(b), be16(&b[2..]) as usize);
        if b.len() < 4 + l {
            return Err(format!("information TLV of length {l} overruns the message"));
        }
        out.push((t, b[4..4 + l].to_vec()));
        b = &b[4 + l..];
    }
    Ok(out)
}

/// parse a BMP byte stream into messages; the common-header length must tile the stream
pub fn read_bmp(mut b: &[u8]) -> Result<Vec<BmpBody>, String> {
    let mut out = Vec::new();
    while !b.is_empty() {
        if b.len() < 6 {
            return Err(format!("{} trailing bytes are shorter than a BMP common header", b.len()));
        }
        if b[0] != 3 {
            return Err(format!("BMP version {} != 3", b[0]));
        }
        let len = be32(&b[1..]) as usize;
        if len < 6 || len > b.len() {
            return Err(format!("BMP message length {len} does not fit the {} bytes present", b.len()));
        }
        let body = &b[6..len];
        let m = match b[5] {
            0 => {
                let (peer, rest) = per_peer(body)?;
                let pdus = split_bgp(rest).map_err(|e| format!("route monitoring: {e}"))?;
                BmpBody::RouteMonitoring { peer, pdus: pdus.into_iter().map(|p| p.to_vec()).collect() }
            }
            3 => {
                let (peer, rest) = per_peer(body)?;
                if rest.len() < 20 {
                    return Err("peer up: local address / ports cut short".into());
                }
                // RFC 7854 §4.10: the local address has the family of the V flag
                let local = addr16(&rest[..16], peer.flags & 0x80 != 0).map_err(|e| format!("peer up local address: {e}"))?;
                let (lp, rp) = (be16(&rest[16..]), be16(&rest[18..]));
                let rest = &rest[20..];
                // two OPEN PDUs, then optional information TLVs
                let mut pdus = Vec::new();
                let mut pos = 0;
                for k in 0..2 {
                    if rest.len() < pos + 19 || rest[pos..pos + 16] != [0xff; 16] {
                        return Err(format!("peer up: OPEN #{k} missing"));
                    }
                    let l = be16(&rest[pos + 16..]) as usize;
                    if l < 19 || pos + l > rest.len() {
                        return Err(format!("peer up: OPEN #{k} length {l} overruns"));
                    }
                    if rest[pos + 18] != 1 {
                        return Err(format!("peer up: PDU #{k} has type {} not OPEN", rest[pos + 18]));
                    }
                    pdus.push(rest[pos..pos + l].to_vec());
                    pos += l;
                }
                let info = tlvs(&rest[pos..]).map_err(|e| format!("peer up: {e}"))?;
                let received_open = pdus.pop().unwrap();
                let sent_open = pdus.pop().unwrap();
                BmpBody::PeerUp { peer, local, local_port: lp, remote_port: rp, sent_open, received_open, info }
            }
            2 => {
                let (peer, rest) = per_peer(body)?;
                if rest.is_empty() {
                    return Err("peer down: reason missing".into());
                }
                let reason = rest[0];
                let data = rest[1..].to_vec();
                match reason {
                    1 | 3 => {
                        let p = split_bgp(&data).map_err(|e| format!("peer down notification: {e}"))?;
                        if p.len() != 1 || p[0][18] != 3 {
                            return Err("peer down reason 1/3 must carry exactly one NOTIFICATION PDU".into());
                        }
                    }
                    2 => {
                        if data.len() != 2 {
                            return Err(format!("peer down reason 2 carries a 2-byte FSM event code, {} bytes present", data.len()));
                        }
                    }
                    4 | 5 => {
                        if !data.is_empty() {
                            return Err(format!("peer down reason {reason} carries no data, {} bytes present", data.len()));
                        }
                    }
                    _ => {}
                }
                BmpBody::PeerDown { peer, reason, data }
            }
            4 => BmpBody::Initiation(tlvs(body)?),
            5 => BmpBody::Termination(tlvs(body)?),
            t => BmpBody::Other(t, body.to_vec()),
        };
        out.push(m);
        b = &b[len..];
    }
    Ok(out)
}

// ---------------------------------------------------------------------------
// MRT
// ---------------------------------------------------------------------------

#[derive(Debug, Clone, PartialEq)]
pub struct MrtRibEntry {
    pub peer_index: u16,
    pub originated: u32,
    /// attribute TLVs: (flags, code, value)
    pub attrs: Vec<(u8, u8, Vec<u8>)>,
}

#[derive(Debug, Clone, PartialEq)]
pub enum MrtRecord {
    Bgp4mp { subtype: u16, peer_as: u32, local_as: u32, ifindex: u16, afi: u16, peer: IpAddr, local: IpAddr, pdus: Vec<Vec<u8>> },
    PeerIndex { collector: Ipv4Addr, view: Vec<u8>, peers: Vec<(Ipv4Addr, IpAddr, u32)> },
    Rib { v6: bool, seq: u32, prefix_len: u8, prefix: Vec<u8>, entries: Vec<MrtRibEntry> },
    Other(u16, u16),
}

pub fn attr_tlvs(mut b: &[u8]) -> Result<Vec<(u8, u8, Vec<u8>)>, String> {
    let mut out = Vec::new();
    while !b.is_empty() {
        if b.len() < 3 {
            return Err("attribute header cut short".into());
        }
        let (flags, code) = (b[0], b[1]);
        let (l, h) = if flags & 0x10 != 0 {
            if b.len() < 4 {
                return Err("extended attribute header cut short".into());
            }
            (be16(&b[2..]) as usize, 4)
        } else {
            (b[2] as usize, 3)
        };
        if b.len() < h + l {
            return Err(format!("attribute {code} of length {l} overruns the attribute block"));
        }
        out.push((flags, code, b[h..h + l].to_vec()));
        b = &b[h + l..];
    }
    Ok(out)
}

pub fn read_mrt(mut b: &[u8]) -> Result<Vec<(u32, MrtRecord)>, String> {
    let mut out = Vec::new();
    while !b.is_empty() {
        if b.len() < 12 {
            return Err(format!("{} trailing bytes are shorter than an MRT header", b.len()));
        }
        let (ts, t, st, len) = (be32(b), be16(&b[4..]), be16(&b[6..]), be32(&b[8..]) as usize);
        if 12 + len > b.len() {
            return Err(format!("MRT record length {len} overruns the {} bytes present", b.len() - 12));
        }
        let body = &b[12..12 + len];
        let rec = match (t, st) {
            (16, 1 | 4 | 8 | 9) => {
                let as4 = st != 1;
                let asl = if as4 { 4 } else { 2 };
                if body.len() < 2 * asl + 4 {
                    return Err("BGP4MP header cut short".into());
                }
                let (peer_as, local_as) = if as4 { (be32(body), be32(&body[4..])) } else { (be16(body) as u32, be16(&body[2..]) as u32) };
                let r = &body[2 * asl..];
                let (ifindex, afi) = (be16(r), be16(&r[2..]));
                let al = match afi {
                    1 => 4,
                    2 => 16,
                    x => return Err(format!("BGP4MP address family {x}")),
                };
                let r = &r[4..];
                if r.len() < 2 * al {
                    return Err(format!("BGP4MP record announces AFI {afi} but holds {} address bytes instead of {}", r.len(), 2 * al));
                }
                let ip = |x: &[u8]| -> IpAddr {
                    if al == 4 { IpAddr::V4(Ipv4Addr::new(x[0], x[1], x[2], x[3])) } else { IpAddr::V6(Ipv6Addr::from(<[u8; 16]>::try_from(&x[..16]).unwrap())) }
                };
                let (peer, local) = (ip(r), ip(&r[al..]));
                let pdus = split_bgp(&r[2 * al..]).map_err(|e| format!("BGP4MP message: {e}"))?;
                MrtRecord::Bgp4mp { subtype: st, peer_as, local_as, ifindex, afi, peer, local, pdus: pdus.into_iter().map(|p| p.to_vec()).collect() }
            }
            (13, 1) => {
                if body.len() < 8 {
                    return Err("PEER_INDEX_TABLE cut short".into());
                }
                let collector = Ipv4Addr::new(body[0], body[1], body[2], body[3]);
                let vl = be16(&body[4..]) as usize;
                if body.len() < 6 + vl + 2 {
                    return Err("PEER_INDEX_TABLE view name overruns".into());
                }
                let view = body[6..6 + vl].to_vec();
                let n = be16(&body[6 + vl..]) as usize;
                let mut r = &body[8 + vl..];
                let mut peers = Vec::new();
                for i in 0..n {
                    if r.is_empty() {
                        return Err(format!("PEER_INDEX_TABLE announces {n} peers, {i} present"));
                    }
                    let ty = r[0];
                    let al = if ty & 1 != 0 { 16 } else { 4 };
                    let asl = if ty & 2 != 0 { 4 } else { 2 };
                    if r.len() < 5 + al + asl {
                        return Err(format!("PEER_INDEX_TABLE peer {i} cut short"));
                    }
                    let id = Ipv4Addr::new(r[1], r[2], r[3], r[4]);
                    let a = &r[5..5 + al];
                    let addr = if al == 4 { IpAddr::V4(Ipv4Addr::new(a[0], a[1], a[2], a[3])) } else { IpAddr::V6(Ipv6Addr::from(<[u8; 16]>::try_from(a).unwrap())) };
                    let asn = if asl == 4 { be32(&r[5 + al..]) } else { be16(&r[5 + al..]) as u32 };
                    peers.push((id, addr, asn));
                    r = &r[5 + al + asl..];
                }
                if !r.is_empty() {
                    return Err(format!("PEER_INDEX_TABLE has {} bytes after its {n} peers", r.len()));
                }
                MrtRecord::PeerIndex { collector, view, peers }
            }
            (13, 2 | 4) => {
                let v6 = st == 4;
                if body.len() < 5 {
                    return Err("RIB record cut short".into());
                }
                let seq = be32(body);
                let plen = body[4];
                if plen > if v6 { 128 } else { 32 } {
                    return Err(format!("RIB prefix length {plen}"));
                }
                let pb = (plen as usize).div_ceil(8);
                if body.len() < 5 + pb + 2 {
                    return Err("RIB prefix overruns".into());
                }
                let prefix = body[5..5 + pb].to_vec();
                let n = be16(&body[5 + pb..]) as usize;
                let mut r = &body[7 + pb..];
                let mut entries = Vec::new();
                for i in 0..n {
                    if r.len() < 8 {
                        return Err(format!("RIB record announces {n} entries, entry {i} cut short"));
                    }
                    let (peer_index, originated, al) = (be16(r), be32(&r[2..]), be16(&r[6..]) as usize);
                    if r.len() < 8 + al {
                        return Err(format!("RIB entry {i}: attribute length {al} overruns the record ({} bytes left)", r.len() - 8));
                    }
                    let attrs = attr_tlvs(&r[8..8 + al]).map_err(|e| format!("RIB entry {i}: {e}"))?;
                    entries.push(MrtRibEntry { peer_index, originated, attrs });
                    r = &r[8 + al..];
                }
                if !r.is_empty() {
                    return Err(format!("RIB record has {} bytes after its {n} entries", r.len()));
                }
                MrtRecord::Rib { v6, seq, prefix_len: plen, prefix, entries }
            }
            _ => MrtRecord::Other(t, st),
        };
        out.push((ts, rec));
        b = &b[12 + len..];
    }
    Ok(out)
}
