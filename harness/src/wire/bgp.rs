//! Independent structural reader for BGP frames, written from RFC 4271 / 4760 / 7911
//! (not from the repository's parser). It checks that length fields are mutually
//! consistent; it does not interpret attribute values.

#[derive(Debug, Clone)]
pub struct Frame {
    pub offset: usize,
    pub len: usize,
    pub mtype: u8,
    /// for UPDATE: number of attributes, mp_reach present, mp_unreach present,
    /// withdrawn bytes, NLRI bytes
    pub n_attrs: usize,
    pub attr_bytes: usize,
    pub withdrawn_bytes: usize,
    pub nlri_bytes: usize,
    pub has_mp_reach: bool,
    pub has_mp_unreach: bool,
}

fn be16(b: &[u8], i: usize) -> usize {
    ((b[i] as usize) << 8) | b[i + 1] as usize
}

/// Walk a byte stream that must consist of whole BGP messages.
pub fn walk_stream(buf: &[u8], max_len: usize) -> Result<Vec<Frame>, String> {
    let mut out = Vec::new();
    let mut pos = 0usize;
    while pos < buf.len() {
        if buf.len() - pos < 19 {
            return Err(format!("trailing {} bytes are shorter than a BGP header", buf.len() - pos));
        }
        if buf[pos..pos + 16].iter().any(|b| *b != 0xff) {
            return Err(format!("frame at {pos}: marker is not all ones"));
        }
        let len = be16(buf, pos + 16);
        if len < 19 {
            return Err(format!("frame at {pos}: length {len} < 19"));
        }
        if len > max_len {
            return Err(format!("frame at {pos}: length {len} exceeds the negotiated maximum {max_len}"));
        }
        if pos + len > buf.len() {
            return Err(format!("frame at {pos}: length {len} runs past the end of the output ({} bytes left)", buf.len() - pos));
        }
        let f = walk_frame(&buf[pos..pos + len], pos)?;
        out.push(f);
        pos += len;
    }
    Ok(out)
}

pub fn walk_frame(b: &[u8], offset: usize) -> Result<Frame, String> {
    let len = b.len();
    let mtype = b[18];
    let mut f = Frame { offset, len, mtype, n_attrs: 0, attr_bytes: 0, withdrawn_bytes: 0, nlri_bytes: 0, has_mp_reach: false, has_mp_unreach: false };
    match mtype {
        1 => {
            if len < 29 {
                return Err(format!("OPEN at {offset}: length {len} < 29"));
            }
            let opt = b[28] as usize;
            if 29 + opt != len {
                return Err(format!("OPEN at {offset}: optional parameter length {opt} but {} bytes follow", len - 29));
            }
            let mut p = 29;
            while p < len {
                if p + 2 > len {
                    return Err(format!("OPEN at {offset}: truncated optional parameter header"));
                }
                let (ptype, plen) = (b[p], b[p + 1] as usize);
                p += 2;
                if p + plen > len {
                    return Err(format!("OPEN at {offset}: optional parameter type {ptype} length {plen} overruns"));
                }
                if ptype == 2 {
                    let end = p + plen;
                    let mut c = p;
                    while c < end {
                        if c + 2 > end {
                            return Err(format!("OPEN at {offset}: truncated capability header"));
                        }
                        let clen = b[c + 1] as usize;
                        c += 2;
                        if c + clen > end {
                            return Err(format!("OPEN at {offset}: capability {} length {clen} overruns its parameter", b[c - 2]));
                        }
                        c += clen;
                    }
                }
                p += plen;
            }
        }
        2 => {
            if len < 23 {
                return Err(format!("UPDATE at {offset}: length {len} < 23"));
            }
            let wl = be16(b, 19);
            if 21 + wl + 2 > len {
                return Err(format!("UPDATE at {offset}: withdrawn length {wl} overruns the frame"));
            }
            let al = be16(b, 21 + wl);
            let attr_start = 23 + wl;
            if attr_start + al > len {
                return Err(format!("UPDATE at {offset}: attribute length {al} overruns the frame (len {len}, withdrawn {wl})"));
            }
            f.withdrawn_bytes = wl;
            f.attr_bytes = al;
            f.nlri_bytes = len - attr_start - al;
            let end = attr_start + al;
            let mut p = attr_start;
            let mut seen = std::collections::BTreeSet::new();
            while p < end {
                if p + 3 > end {
                    return Err(format!("UPDATE at {offset}: truncated attribute header at {p}"));
                }
                let flags = b[p];
                let code = b[p + 1];
                let (alen, hdr) = if flags & 0x10 != 0 {
                    if p + 4 > end {
                        return Err(format!("UPDATE at {offset}: truncated extended attribute header"));
                    }
                    (be16(b, p + 2), 4)
                } else {
                    (b[p + 2] as usize, 3)
                };
                if p + hdr + alen > end {
                    return Err(format!("UPDATE at {offset}: attribute {code} length {alen} overruns the attribute block"));
                }
                if !seen.insert(code) {
                    return Err(format!("UPDATE at {offset}: attribute {code} appears twice"));
                }
                let body = &b[p + hdr..p + hdr + alen];
                if code == 14 {
                    f.has_mp_reach = true;
                    if body.len() < 5 {
                        return Err(format!("UPDATE at {offset}: MP_REACH shorter than 5 bytes"));
                    }
                    let nhl = body[3] as usize;
                    if 4 + nhl + 1 > body.len() {
                        return Err(format!("UPDATE at {offset}: MP_REACH next-hop length {nhl} overruns the attribute"));
                    }
                }
                if code == 15 {
                    f.has_mp_unreach = true;
                    if body.len() < 3 {
                        return Err(format!("UPDATE at {offset}: MP_UNREACH shorter than 3 bytes"));
                    }
                }
                f.n_attrs += 1;
                p += hdr + alen;
            }
        }
        3 => {
            if len < 21 {
                return Err(format!("NOTIFICATION at {offset}: length {len} < 21"));
            }
        }
        4 => {
            if len != 19 {
                return Err(format!("KEEPALIVE at {offset}: length {len} != 19"));
            }
        }
        5 => {
            if len != 23 {
                return Err(format!("ROUTE-REFRESH at {offset}: length {len} != 23"));
            }
        }
        t => return Err(format!("frame at {offset}: unknown message type {t}")),
    }
    Ok(f)
}

/// Walk a prefix-style NLRI list ([path-id] len-bits, ceil(bits/8) bytes): used for
/// IPv4/IPv6 unicast/multicast, labeled and VPN families.
pub fn walk_prefix_nlri(mut b: &[u8], addpath: bool) -> Result<usize, String> {
    let mut n = 0;
    while !b.is_empty() {
        if addpath {
            if b.len() < 4 {
                return Err("truncated path id".into());
            }
            b = &b[4..];
        }
        if b.is_empty() {
            return Err("missing prefix length octet".into());
        }
        let bits = b[0] as usize;
        let bytes = bits.div_ceil(8);
        if 1 + bytes > b.len() {
            return Err(format!("prefix of {bits} bits overruns the NLRI field"));
        }
        b = &b[1 + bytes..];
        n += 1;
    }
    Ok(n)
}
