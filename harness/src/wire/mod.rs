pub mod bgp;
pub mod pb;
