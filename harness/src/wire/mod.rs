pub mod bgp;
