pub mod bgp;
pub mod pb;
pub mod mon;
