#![no_main]
// C03: BFD control packet decoder: total, and decode(encode(decode(x))) is stable.
use libfuzzer_sys::fuzz_target;
use rustybgp_packet::bfd::Message;

fuzz_target!(|data: &[u8]| {
    if let Ok(m) = Message::decode(data) {
        if let Ok(bytes) = m.encode() {
            let m2 = Message::decode(&bytes).expect("C03 bfd: re-encoded packet does not decode");
            assert!(m == m2, "C03 bfd: decode(encode(m)) != m");
        }
    }
});
