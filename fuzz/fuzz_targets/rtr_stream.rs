#![no_main]
// C03: RTR decoder as tokio Framed drives it. byte 0 = fragment size selector.
use bytes::BytesMut;
use libfuzzer_sys::fuzz_target;
use rustybgp_packet::rpki::{Message, RtrCodec};
use tokio_util::codec::Decoder;

fn summary(m: &Message) -> String {
    match m {
        Message::SerialNotify { session_id, serial_number } => format!("notify {session_id} {serial_number}"),
        Message::SerialQuery { session_id, serial_number } => format!("squery {session_id} {serial_number}"),
        Message::ResetQuery => "rquery".into(),
        Message::CacheResponse { session_id } => format!("cresp {session_id}"),
        Message::IpPrefix(p) => format!("prefix {} {} {} {}", p.net, p.flags, p.max_length, p.as_number),
        Message::EndOfData { session_id, serial_number, .. } => format!("eod {session_id} {serial_number}"),
        Message::CacheReset => "creset".into(),
        Message::ErrorReport { error_code } => format!("err {error_code}"),
    }
}

fn drive(chunks: &[&[u8]], total: usize) -> Vec<String> {
    let mut codec = RtrCodec::new();
    let mut buf = BytesMut::new();
    let mut out = Vec::new();
    let mut iters = 0usize;
    'outer: for ch in chunks {
        buf.extend_from_slice(ch);
        loop {
            iters += 1;
            assert!(iters <= total + chunks.len() + 2, "C03 no-progress: RTR decode loop exceeded bytes+1 iterations");
            let before = buf.len();
            match codec.decode(&mut buf) {
                Ok(Some(m)) => {
                    assert!(buf.len() < before, "C03 no-progress: PDU returned without consuming input");
                    out.push(summary(&m));
                }
                Ok(None) => {
                    assert!(buf.len() <= before, "C03 need-more-modified");
                    if buf.len() >= 8 {
                        let l = u32::from_be_bytes([buf[4], buf[5], buf[6], buf[7]]) as usize;
                        assert!(l >= 8, "C03 bad-length-accepted: {l}");
                        assert!(l > buf.len(), "C03 complete-frame-pending: type {} length {l}", buf[1]);
                    }
                    break;
                }
                Err(_) => {
                    out.push("error".into());
                    break 'outer;
                }
            }
        }
    }
    out
}

fuzz_target!(|data: &[u8]| {
    if data.is_empty() {
        return;
    }
    let frag = 1 + (data[0] as usize % 40);
    let stream = &data[1..];
    let whole = drive(&[stream], stream.len());
    let chunks: Vec<&[u8]> = stream.chunks(frag).collect();
    let pieces = drive(&chunks, stream.len());
    assert!(whole == pieces, "C03 chunking: fragmented delivery changes the outcome sequence");
});
