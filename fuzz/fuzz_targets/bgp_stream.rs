#![no_main]
// C03: BGP stream decoder. byte 0 = codec preset, byte 1 = fragment size selector,
// rest = the byte stream. Oracle (same as harness props/c03.rs): no panic, progress on
// Some, no complete frame left pending on None, bounded iterations, chunking invariance.
use bytes::BytesMut;
use libfuzzer_sys::fuzz_target;
use rustybgp_packet::bgp::{self, ParsedMessage, ParsedUpdate, PeerCodec};

#[path = "/verif/harness/src/cgen/presets.rs"]
mod presets;

fn summarize(m: &ParsedMessage) -> String {
    match m {
        ParsedMessage::Open(o) => format!("open {} {} {} {:?}", o.as_number, o.holdtime.seconds(), o.router_id, o.capability),
        ParsedMessage::Update(ParsedUpdate::EndOfRib(f)) => format!("eor {:?}", f),
        ParsedMessage::Update(ParsedUpdate::Routes { reach, mp_reach, unreach, mp_unreach, attrs, error_attrs }) => format!("upd {:?} {:?} {:?} {:?} {:?} {:?}", reach, mp_reach, unreach, mp_unreach, attrs, error_attrs),
        ParsedMessage::Notification(n) => format!("notif {:?}", n),
        ParsedMessage::Keepalive => "keepalive".into(),
        ParsedMessage::RouteRefresh { family } => format!("rr {:?}", family),
    }
}

fn drive(mut codec: PeerCodec, chunks: &[&[u8]], total: usize) -> Vec<String> {
    let max = codec.max_message_length();
    let mut buf = BytesMut::new();
    let mut out = Vec::new();
    let mut iters = 0usize;
    'outer: for ch in chunks {
        buf.extend_from_slice(ch);
        loop {
            iters += 1;
            assert!(iters <= total + chunks.len() + 2, "C03 no-progress: decode loop exceeded bytes+1 iterations");
            let before = buf.len();
            match codec.try_parse(&mut buf) {
                Ok(Some(msg)) => {
                    assert!(buf.len() < before, "C03 no-progress: message returned without consuming input");
                    for ebgp in [false, true] {
                        let _ = bgp::validate_message(msg.clone(), ebgp).map(|it| it.count());
                    }
                    out.push(summarize(&msg));
                }
                Ok(None) => {
                    assert!(buf.len() == before, "C03 need-more-modified");
                    if before >= 19 {
                        let l = ((buf[16] as usize) << 8) | buf[17] as usize;
                        assert!(l >= 19 && l <= max, "C03 bad-length-accepted: {l}");
                        assert!(l > before, "C03 complete-frame-pending");
                    }
                    break;
                }
                Err(n) => {
                    out.push(format!("error {} {} {}", n.notification_code(), n.notification_subcode(), n.notification_data().len()));
                    break 'outer;
                }
            }
        }
    }
    out
}

fuzz_target!(|data: &[u8]| {
    if data.len() < 2 {
        return;
    }
    let preset = data[0];
    let frag = 1 + (data[1] as usize % 64);
    let stream = &data[2..];
    let whole = drive(presets::preset_codec(preset), &[stream], stream.len());
    let chunks: Vec<&[u8]> = stream.chunks(frag).collect();
    let pieces = drive(presets::preset_codec(preset), &chunks, stream.len());
    assert!(whole == pieces, "C03 chunking: fragmented delivery changes the outcome sequence");
});
