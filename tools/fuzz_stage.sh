#!/usr/bin/env bash
# fuzz_stage.sh <ID> <quick|thorough> <evidence.json>
# Coverage-guided (libFuzzer) stage for the byte-level properties. Thorough tier only.
# Each target runs twice (seeded from /verif/corpus/<target> and from an empty corpus)
# for a fixed number of runs; any crash is judged by the harness oracle and becomes a
# replay file. exit 0 ok / 1 violation / 2 inconclusive.
set -u
ROOT="$(cd "$(dirname "${BASH_SOURCE[0]}")/.." && pwd)"
ID="$1"; MODE="$2"; EV="$3"
[ "$MODE" = "thorough" ] || exit 0
case "$ID" in
  C03) TARGETS="bgp_stream rtr_stream bfd_pkt"; RUNS="${VERIF_FUZZ_RUNS:-1500000}"; MAXLEN=4400 ;;
  *) exit 0 ;;
esac
export CARGO_NET_OFFLINE=true RUST_BACKTRACE=0
SEED="${VERIF_SEED:-1}"; [ "$SEED" = "0" ] && SEED=1
cd "$ROOT/harness" || exit 2
cargo +nightly fuzz build --fuzz-dir "$ROOT/fuzz" >/tmp/rbverif-fuzzbuild.$$ 2>&1 || { echo "INCONCLUSIVE: fuzz build failed"; tail -20 /tmp/rbverif-fuzzbuild.$$; rm -f /tmp/rbverif-fuzzbuild.$$; exit 2; }
rm -f /tmp/rbverif-fuzzbuild.$$
EXE="${RBVERIF_EXE:-$(ls -t "$ROOT"/harness/target/debug/deps/rbverif-* 2>/dev/null | grep -v '\.d$' | head -1)}"
rc=0
STATS="$(mktemp)"; echo "{}" > "$STATS"
for t in $TARGETS; do
  for mode in seeded empty; do
    WORK="$(mktemp -d /tmp/rbverif-fuzz.XXXXXX)"
    mkdir -p "$WORK/corpus" "$WORK/art"
    if [ "$mode" = seeded ] && [ -d "$ROOT/corpus/$t" ]; then cp "$ROOT/corpus/$t"/* "$WORK/corpus/" 2>/dev/null; fi
    LOG="$WORK/log"
    n=$(( RUNS / 2 ))
    timeout --signal=KILL 7200 cargo +nightly fuzz run --fuzz-dir "$ROOT/fuzz" "$t" "$WORK/corpus" -- \
      -runs="$n" -seed="$SEED" -max_len="$MAXLEN" -len_control=0 -print_final_stats=1 \
      -artifact_prefix="$WORK/art/" -jobs=1 >"$LOG" 2>&1
    frc=$?
    execs=$(grep -a "stat::number_of_executed_units" "$LOG" | awk '{print $2}' | tail -1)
    cov=$(grep -a " cov: " "$LOG" | tail -1 | sed 's/.* cov: \([0-9]*\).*/\1/')
    corp=$(ls "$WORK/corpus" | wc -l)
    python3 - "$STATS" "$t" "$mode" "${execs:-0}" "${cov:-0}" "$corp" <<'PY'
import json,sys
p,t,m,e,c,n=sys.argv[1:7]
d=json.load(open(p)); d.setdefault(t,{})[m]={"executions":int(e or 0),"coverage_edges":int(c or 0),"corpus_files":int(n)}
json.dump(d,open(p,"w"))
PY
    if ls "$WORK/art"/* >/dev/null 2>&1; then
      for a in "$WORK/art"/*; do
        keep="$ROOT/replays/fuzz-$t-$(basename "$a")"; mkdir -p "$ROOT/replays"; cp "$a" "$keep"
        "$EXE" "$ID" --from-fuzz "$t" "$keep"; jr=$?
        if [ $jr -eq 1 ]; then rc=1; elif [ $jr -ne 0 ]; then echo "INCONCLUSIVE: libFuzzer artifact $keep for $t is not reproduced by the harness oracle"; tail -5 "$LOG"; [ $rc -eq 0 ] && rc=2; fi
      done
    elif [ $frc -ne 0 ]; then
      echo "INCONCLUSIVE: libFuzzer run of $t ($mode) exited with $frc without an artifact"; tail -5 "$LOG"; [ $rc -eq 0 ] && rc=2
    fi
    rm -rf "$WORK"
  done
done
python3 - "$EV" "$STATS" <<'PY'
import json,sys
ev,st=sys.argv[1:3]
try:
    d=json.load(open(ev)); s=json.load(open(st))
    d["coverage"]["libfuzzer"]=s
    d["coverage"]["evaluations"]+=sum(m["executions"] for t in s.values() for m in t.values())
    d["coverage"]["rule"]+=" | thorough tier adds coverage-guided libFuzzer campaigns (fixed run count, seeded and empty corpus) on the same oracle; their executions are added to evaluations but not to distinct_nontrivial"
    json.dump(d,open(ev,"w"),indent=1)
except Exception as e:
    print("NOTE: could not merge fuzz stats:",e)
PY
rm -f "$STATS"
exit $rc
