#!/usr/bin/env python3
"""gen_design_tables.py — regenerate the ledger table (0A.5) and the seeded-change table (0A.7) of DESIGN.md
from known_findings.json and seeded/*/meta.json. Development-time helper; not a registered command."""
import json, os, re
root = os.path.dirname(os.path.dirname(os.path.abspath(__file__)))
p = os.path.join(root, "DESIGN.md")
s = open(p).read()
kf = json.load(open(os.path.join(root, "known_findings.json")))
def esc(t): return t.replace("|", "/").replace("\n", " ")
rows = ["| finding | status | repaired by | what failed on the unchanged tree |", "|---|---|---|---|"]
for e in sorted(kf, key=lambda e: (e["property"], e["id"])):
    rows.append(f"| {e['id']} | {e['status']} | {e.get('commit') or '—'} | {esc(e['what'])} |")
a = s.index("| finding | status | repaired by |"); b = s.index("Open findings (printed as")
s = s[:a] + "\n".join(rows) + "\n\n" + s[b:]
rows = ["| seeded change | breaks | what it is (one line) | outcome against the checks |", "|---|---|---|---|"]
sd = os.path.join(root, "seeded")
for d in sorted(os.listdir(sd)):
    m = json.load(open(os.path.join(sd, d, "meta.json")))
    summ = esc(m.get("summary", ""))
    if len(summ) > 260: summ = summ[:260] + "…"
    rows.append(f"| {d} | {m.get('breaks_property') or m.get('property')} | {summ} | {esc(m.get('checks_run_against_it', ''))} |")
a = s.index("| seeded change | breaks |"); b = s.index("seeded changes were **missed at first**")
b = s.rfind("\n\n", 0, b) + 2
s = s[:a] + "\n".join(rows) + "\n\n" + s[b:]
fixed = [e for e in kf if e["status"] == "fixed"]; opn = [e for e in kf if e["status"] == "open"]
print(f"{len(kf)} findings: {len(fixed)} fixed by {len(set(e['commit'] for e in fixed))} commits, {len(opn)} open; {len(os.listdir(sd))} seeded changes")
open(p, "w").write(s)
