#!/usr/bin/env python3
"""Merge the evidence files of the two arithmetic profiles into one.

The same seed is used in both profiles, so both runs generate the same cases:
`evaluations` is the sum of executions, `distinct_nontrivial` is the maximum (the
distinct cases are the same ones), everything else is kept per profile."""
import json, sys
out, *ins = sys.argv[1:]
docs = []
for p in ins:
    try:
        docs.append(json.load(open(p)))
    except Exception:
        pass
if not docs:
    sys.exit(1)
base = docs[0]
cov = base["coverage"]
cov["per_profile"] = {}
for d in docs:
    c = d["coverage"]
    cov["per_profile"][c["profiles"][0]] = {
        "evaluations": c["evaluations"],
        "distinct_nontrivial": c["distinct_nontrivial"],
        "classes": c.get("classes", {}),
        "sub_checks": c.get("sub_checks", {}),
        "excluded_known": c.get("excluded_known", {}),
        "wall_s": d["wall_s"],
        "violations": d.get("violations", 0),
    }
cov["evaluations"] = sum(d["coverage"]["evaluations"] for d in docs)
cov["distinct_nontrivial"] = max(d["coverage"]["distinct_nontrivial"] for d in docs)
cov["profiles"] = [d["coverage"]["profiles"][0] for d in docs]
cov["rule"] = cov.get("rule", "") + " | every case is executed once per arithmetic profile (same seed => same cases); distinct_nontrivial counts distinct cases, not executions"
lines = []
for d in docs:
    for l in d["coverage"].get("known_finding_lines", []):
        if l not in lines:
            lines.append(l)
cov["known_finding_lines"] = lines
base["wall_s"] = sum(d["wall_s"] for d in docs)
base["violations"] = sum(d.get("violations", 0) for d in docs)
base["violation_replays"] = sum((d.get("violation_replays", []) for d in docs), [])
json.dump(base, open(out, "w"), indent=1)
