#!/usr/bin/env bash
# try_seeded.sh <seeded dir> <ID> [tier]  — apply the seeded change to /repo, run the check, undo it.
set -u
D="$1"; ID="$2"; TIER="${3:-quick}"
git -C /repo diff --quiet || { echo "/repo has uncommitted changes; refusing"; exit 2; }
git -C /repo apply "$D/patch.diff" || { echo "patch does not apply"; exit 2; }
/verif/check "$ID" "$TIER" 2>&1 | grep -v "Aborting shrinking" | tail -12; rc=${PIPESTATUS[0]}
git -C /repo checkout -- . ; git -C /repo status --short | grep -v '^??' 
echo "TRY $(basename $D) $ID $TIER => rc=$rc"
