#!/usr/bin/env python3
"""keep_seeded.py <name> <confirm line> <detected_by text> — copy a confirmed seeded change into /verif/seeded/<name>/"""
import json, os, shutil, sys
name, confirm, detected = sys.argv[1:4]
src = f"/tmp/seeded-out/{name}"; dst = f"/verif/seeded/{name}"
os.makedirs(dst, exist_ok=True)
for f in ("patch.diff", "demo.diff", "run_demo.sh"):
    shutil.copy(f"{src}/{f}", f"{dst}/{f}")
meta = json.load(open(f"{src}/meta.json"))
meta["breaks_property"] = meta.get("property")
meta["confirmed_by_me"] = {"ran": "tools/confirm_seeded.sh (scratch worktree of /repo HEAD: demo without change, demo with change, full unedited suite with change)", "result": confirm}
meta["checks_run_against_it"] = detected
json.dump(meta, open(f"{dst}/meta.json", "w"), indent=1)
