#!/usr/bin/env bash
# confirm_seeded.sh <dir with patch.diff demo.diff run_demo.sh>  — development-time helper.
# In a scratch worktree of /repo HEAD: demo passes without the change, fails with it,
# and the unedited existing suite passes with the change. Removes the worktree afterwards.
set -u
D="$(cd "$1" && pwd)"; WT=/tmp/wt-confirm
export CARGO_NET_OFFLINE=true CARGO_TARGET_DIR=/tmp/confirm-target
git -C /repo worktree remove --force $WT 2>/dev/null
git -C /repo worktree add --detach $WT HEAD >/dev/null 2>&1 || { echo "worktree failed"; exit 2; }
cp /repo/Cargo.lock $WT/
cd $WT
res() { echo "CONFIRM $(basename $D): $*"; }
git apply --3way "$D/demo.diff" 2>/dev/null || git apply "$D/demo.diff" || { res "demo.diff does not apply"; exit 2; }
DEMO="$(grep -v '^#' "$D/run_demo.sh" | grep cargo | tail -1)"
( eval "$DEMO" ) > /tmp/confirm-demo1.log 2>&1; r1=$?
git apply "$D/patch.diff" || git apply --3way "$D/patch.diff" || { res "patch.diff does not apply"; exit 2; }
( eval "$DEMO" ) > /tmp/confirm-demo2.log 2>&1; r2=$?
git apply -R "$D/demo.diff" 2>/dev/null || git stash -q 2>/dev/null
cargo test --workspace --no-fail-fast --offline 2>&1 | grep -E "^test result" > /tmp/confirm-suite.log
passed=$(awk '{s+=$4} END{print s}' /tmp/confirm-suite.log); failed=$(awk '{s+=$6} END{print s}' /tmp/confirm-suite.log)
res "demo_without_change_rc=$r1 demo_with_change_rc=$r2 suite_passed=$passed suite_failed=$failed"
cd /; git -C /repo worktree remove --force $WT
[ $r1 -eq 0 ] && [ $r2 -ne 0 ] && [ "$failed" = "0" ] && [ "$passed" = "1242" ]
